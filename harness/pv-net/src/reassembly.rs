//! C21 — message reassembly in both stacks, logged for spec/net/TraceReassembly.tla.
//!
//! `reassembly-trace`: for every core mini-protocol, seeded message values are
//! built through the public enums, encoded back to back, cut into segments
//! (all cut sets for short streams; single / double cuts, 1-byte segments and
//! random cut sets for longer ones) and pushed through
//!   old   : AgentChannel::enqueue_chunk (one chunk per segment) -> two real Plexers over a Unix
//!           socket pair -> ChannelBuffer::recv_full_msg::<M>
//!   new   : AnyMessage::from_payload over the growing partial buffer
//!   sock  : BearerWriteHalf::write_segment -> Unix socket -> BearerReadHalf::read_full_msgs
//!           (optionally two channels interleaved: per-channel partial buffers)
//! A message is identified by a digest of its encoding (the delivered value is
//! re-encoded). The harness only drives and projects; TLC decides on the log.
use pallas_codec::minicbor;
use pallas_codec::utils::{AnyCbor, Bytes, TagWrap};
use pallas_codec::Fragment;
use pallas_network::miniprotocols as old;
use pallas_network::multiplexer::{Bearer, ChannelBuffer, Plexer};
use pallas_network2::behavior::AnyMessage;
use pallas_network2::protocol as n2;
use pallas_network2::Message as _;
use pv_core::*;
use serde_json::Value;
use std::collections::HashMap;
use std::fmt::Debug;
use std::net::{Ipv4Addr, Ipv6Addr};
use std::time::Duration;

pub(crate) fn digest(b: &[u8]) -> u32 {
    let mut h: u32 = 0x811c_9dc5;
    for x in b {
        h ^= *x as u32;
        h = h.wrapping_mul(0x0100_0193);
    }
    h & 0x3fff_ffff
}

/// Variant name of a message from its Debug form (evidence / finding keys only).
pub(crate) fn kind_of(dbg: &str) -> String {
    // first two constructor names: "ResponseNextTx.Some", "RollForward.HeaderContent", "KeepAlive"
    let toks: Vec<&str> = dbg
        .split(|c: char| !(c.is_alphanumeric() || c == '_'))
        .filter(|t| t.chars().next().map(|c| c.is_ascii_uppercase()).unwrap_or(false))
        .take(2)
        .collect();
    toks.join(".")
}

// ---------------------------------------------------------------- generators
// size: 0 = as small as possible, 1 = ordinary, 2 = large (spans several 64 KiB segments)

fn blob(rng: &mut Rng, size: u8, small_max: u64) -> Vec<u8> {
    let n = match size {
        0 => rng.below(2),
        1 => rng.below(small_max + 1),
        _ => rng.range(60_000, 150_000),
    };
    rng.bytes(n as usize)
}
fn text(rng: &mut Rng, size: u8) -> String {
    let n = if size == 0 { rng.below(2) } else { rng.below(30) };
    (0..n).map(|_| *rng.pick(&['a', 'Z', '0', ' ', 'é', '✓', '-'])).collect()
}
fn word(rng: &mut Rng, size: u8) -> u64 {
    if size == 0 {
        return rng.below(24);
    }
    match rng.below(6) {
        0 => rng.below(24),
        1 => rng.range(24, 255),
        2 => rng.range(256, 65535),
        3 => rng.range(65536, u32::MAX as u64),
        4 => rng.next_u64(),
        _ => *rng.pick(&[0, 23, 24, 255, 256, 65535, 65536, u32::MAX as u64, u32::MAX as u64 + 1, u64::MAX]),
    }
}
fn old_point(rng: &mut Rng, size: u8) -> old::Point {
    if rng.chance(1, 4) {
        old::Point::Origin
    } else {
        let n = if size == 0 { 0 } else { *rng.pick(&[32usize, 32, 28, 1, 0]) };
        old::Point::Specific(word(rng, size), rng.bytes(n))
    }
}
fn n2_point(rng: &mut Rng, size: u8) -> n2::Point {
    match old_point(rng, size) {
        old::Point::Origin => n2::Point::Origin,
        old::Point::Specific(s, h) => n2::Point::Specific(s, h),
    }
}

pub(crate) trait Gen: Sized {
    fn gen(rng: &mut Rng, size: u8) -> Self;
}

impl Gen for old::chainsync::Message<old::chainsync::HeaderContent> {
    fn gen(rng: &mut Rng, size: u8) -> Self {
        use old::chainsync::{HeaderContent, Message as M, Tip};
        let tip = |rng: &mut Rng| Tip(old_point(rng, size), word(rng, size));
        match rng.below(8) {
            0 => M::RequestNext,
            1 => M::AwaitReply,
            2 => {
                let variant = rng.below(8) as u8;
                let byron_prefix = if variant == 0 { Some((rng.below(2) as u8, word(rng, size))) } else { None };
                M::RollForward(HeaderContent { variant, byron_prefix, cbor: blob(rng, size.min(1), 300) }, tip(rng))
            }
            3 => M::RollBackward(old_point(rng, size), tip(rng)),
            4 => M::FindIntersect((0..rng.below(if size == 0 { 2 } else { 6 })).map(|_| old_point(rng, size)).collect()),
            5 => M::IntersectFound(old_point(rng, size), tip(rng)),
            6 => M::IntersectNotFound(tip(rng)),
            _ => M::Done,
        }
    }
}
impl Gen for old::chainsync::Message<old::chainsync::BlockContent> {
    fn gen(rng: &mut Rng, size: u8) -> Self {
        use old::chainsync::{BlockContent, Message as M, Tip};
        let tip = |rng: &mut Rng| Tip(old_point(rng, size), word(rng, size));
        match rng.below(8) {
            0 => M::RequestNext,
            1 => M::AwaitReply,
            2 | 3 => M::RollForward(BlockContent(blob(rng, size, 400)), tip(rng)),
            4 => M::RollBackward(old_point(rng, size), tip(rng)),
            5 => M::FindIntersect((0..rng.below(4)).map(|_| old_point(rng, size)).collect()),
            6 => M::IntersectFound(old_point(rng, size), tip(rng)),
            _ => M::IntersectNotFound(tip(rng)),
        }
    }
}
impl Gen for old::blockfetch::Message {
    fn gen(rng: &mut Rng, size: u8) -> Self {
        use old::blockfetch::Message as M;
        match rng.below(7) {
            0 => M::RequestRange { range: (old_point(rng, size), old_point(rng, size)) },
            1 => M::ClientDone,
            2 => M::StartBatch,
            3 => M::NoBlocks,
            4 | 5 => M::Block { body: blob(rng, size, 500) },
            _ => M::BatchDone,
        }
    }
}
impl Gen for old::txsubmission::Message<old::txsubmission::EraTxId, old::txsubmission::EraTxBody> {
    fn gen(rng: &mut Rng, size: u8) -> Self {
        use old::txsubmission::{EraTxBody, EraTxId, Message as M, TxIdAndSize};
        let n = if size == 0 { rng.below(2) } else { rng.below(5) };
        let id = |rng: &mut Rng| EraTxId(rng.below(8) as u16, rng.bytes(if size == 0 { 1 } else { 32 }));
        match rng.below(6) {
            0 => M::Init,
            1 => M::RequestTxIds(rng.bool(), word(rng, size) as u16, word(rng, size) as u16),
            2 => M::ReplyTxIds((0..n).map(|_| TxIdAndSize(id(rng), word(rng, size) as u32)).collect()),
            3 => M::RequestTxs((0..n).map(|_| id(rng)).collect()),
            4 => M::ReplyTxs((0..n).map(|_| EraTxBody(rng.below(8) as u16, blob(rng, size, 300))).collect()),
            _ => M::Done,
        }
    }
}
impl Gen for old::keepalive::Message {
    fn gen(rng: &mut Rng, size: u8) -> Self {
        use old::keepalive::Message as M;
        match rng.below(3) {
            0 => M::KeepAlive(word(rng, size) as u16),
            1 => M::ResponseKeepAlive(word(rng, size) as u16),
            _ => M::Done,
        }
    }
}
impl Gen for old::peersharing::Message {
    fn gen(rng: &mut Rng, size: u8) -> Self {
        use old::peersharing::{Message as M, PeerAddress};
        match rng.below(3) {
            0 => M::ShareRequest(word(rng, size) as u8),
            1 => M::SharePeers(
                (0..rng.below(if size == 0 { 2 } else { 6 }))
                    .map(|_| {
                        if rng.bool() {
                            PeerAddress::V4(Ipv4Addr::from(rng.next_u64() as u32), word(rng, size) as u16 as u32)
                        } else {
                            PeerAddress::V6(Ipv6Addr::from(((rng.next_u64() as u128) << 64) | rng.next_u64() as u128), word(rng, size) as u16 as u32)
                        }
                    })
                    .collect(),
            ),
            _ => M::Done,
        }
    }
}
fn old_refuse(rng: &mut Rng, size: u8) -> old::handshake::RefuseReason {
    use old::handshake::RefuseReason as R;
    match rng.below(3) {
        0 => R::VersionMismatch((0..rng.below(5)).map(|_| word(rng, size)).collect()),
        1 => R::HandshakeDecodeError(word(rng, size), text(rng, size)),
        _ => R::Refused(word(rng, size), text(rng, size)),
    }
}
impl Gen for old::handshake::Message<old::handshake::n2n::VersionData> {
    fn gen(rng: &mut Rng, size: u8) -> Self {
        use old::handshake::{n2n::VersionData, Message as M, VersionTable};
        let data = |rng: &mut Rng| {
            if rng.bool() {
                VersionData::new(word(rng, size), rng.bool(), Some(rng.below(2) as u8), Some(rng.bool()))
            } else {
                VersionData::new(word(rng, size), rng.bool(), None, None)
            }
        };
        let table = |rng: &mut Rng| {
            let mut values = HashMap::new();
            for _ in 0..rng.below(if size == 0 { 2 } else { 6 }) {
                values.insert(rng.range(7, 16), data(rng));
            }
            VersionTable { values }
        };
        match rng.below(4) {
            0 => M::Propose(table(rng)),
            1 => M::Accept(rng.range(7, 16), data(rng)),
            2 => M::Refuse(old_refuse(rng, size)),
            _ => M::QueryReply(table(rng)),
        }
    }
}
impl Gen for old::handshake::Message<old::handshake::n2c::VersionData> {
    fn gen(rng: &mut Rng, size: u8) -> Self {
        use old::handshake::{n2c::VersionData, Message as M, VersionTable};
        let data = |rng: &mut Rng| VersionData::new(word(rng, size), if rng.bool() { Some(rng.bool()) } else { None });
        let table = |rng: &mut Rng| {
            let mut values = HashMap::new();
            for _ in 0..rng.below(if size == 0 { 2 } else { 6 }) {
                values.insert(32768 + rng.range(9, 20), data(rng));
            }
            VersionTable { values }
        };
        match rng.below(4) {
            0 => M::Propose(table(rng)),
            1 => M::Accept(32768 + rng.range(9, 20), data(rng)),
            2 => M::Refuse(old_refuse(rng, size)),
            _ => M::QueryReply(table(rng)),
        }
    }
}

/// Arbitrary well-formed CBOR item: all widths, tags, definite and indefinite
/// arrays / maps / byte and text strings, nested byte strings.
fn any_cbor(rng: &mut Rng, depth: u32, size: u8, out: &mut Vec<u8>) {
    fn head(major: u8, v: u64, rng: &mut Rng, out: &mut Vec<u8>) {
        // sometimes a wider-than-needed argument (still well-formed)
        let min_w = if v < 24 { 0 } else if v < 256 { 1 } else if v < 65536 { 2 } else if v <= u32::MAX as u64 { 4 } else { 8 };
        let widths = [0u8, 1, 2, 4, 8];
        let mut w = min_w;
        if rng.chance(1, 5) {
            let cands: Vec<u8> = widths.iter().copied().filter(|x| *x >= min_w).collect();
            w = *rng.pick(&cands);
        }
        match w {
            0 => out.push((major << 5) | v as u8),
            1 => out.extend([(major << 5) | 24, v as u8]),
            2 => {
                out.push((major << 5) | 25);
                out.extend((v as u16).to_be_bytes())
            }
            4 => {
                out.push((major << 5) | 26);
                out.extend((v as u32).to_be_bytes())
            }
            _ => {
                out.push((major << 5) | 27);
                out.extend(v.to_be_bytes())
            }
        }
    }
    let leaf = depth == 0 || size == 0;
    let n_items = |rng: &mut Rng| rng.below(4);
    match if leaf { rng.below(6) } else { rng.below(13) } {
        0 => head(0, word(rng, size), rng, out),
        1 => head(1, word(rng, size), rng, out),
        2 => {
            let b = blob(rng, size.min(1), 40);
            head(2, b.len() as u64, rng, out);
            out.extend(b);
        }
        3 => {
            let s = text(rng, size);
            head(3, s.len() as u64, rng, out);
            out.extend(s.as_bytes());
        }
        4 => out.push(*rng.pick(&[0xf4u8, 0xf5, 0xf6, 0xf7])),
        5 => {
            out.push(0xfb);
            out.extend(rng.next_u64().to_be_bytes());
        }
        6 => {
            let n = n_items(rng);
            head(4, n, rng, out);
            for _ in 0..n {
                any_cbor(rng, depth - 1, size, out);
            }
        }
        7 => {
            out.push(0x9f);
            for _ in 0..n_items(rng) {
                any_cbor(rng, depth - 1, size, out);
            }
            out.push(0xff);
        }
        8 => {
            let n = n_items(rng);
            head(5, n, rng, out);
            for _ in 0..2 * n {
                any_cbor(rng, depth - 1, size, out);
            }
        }
        9 => {
            out.push(0xbf);
            for _ in 0..2 * n_items(rng) {
                any_cbor(rng, depth - 1, size, out);
            }
            out.push(0xff);
        }
        10 => {
            head(6, *rng.pick(&[2u64, 24, 30, 121, 258, 1280, 102]), rng, out);
            any_cbor(rng, depth - 1, size, out);
        }
        11 => {
            // indefinite byte string made of definite chunks
            out.push(0x5f);
            for _ in 0..rng.below(3) {
                let b = blob(rng, 1, 10);
                head(2, b.len() as u64, rng, out);
                out.extend(b);
            }
            out.push(0xff);
        }
        _ => {
            // byte string wrapping an encoded item (tag 24 style nesting)
            let mut inner = Vec::new();
            any_cbor(rng, depth - 1, size, &mut inner);
            out.extend([0xd8, 0x18]);
            head(2, inner.len() as u64, rng, out);
            out.extend(inner);
        }
    }
}
fn any(rng: &mut Rng, size: u8) -> AnyCbor {
    let mut v = Vec::new();
    any_cbor(rng, if size == 0 { 0 } else { 3 }, size, &mut v);
    AnyCbor::from_raw_bytes(v)
}

impl Gen for old::localstate::Message {
    fn gen(rng: &mut Rng, size: u8) -> Self {
        use old::localstate::{AcquireFailure, Message as M};
        let op = |rng: &mut Rng| if rng.bool() { Some(old_point(rng, size)) } else { None };
        match rng.below(10) {
            0 => M::Acquire(op(rng)),
            1 => M::Failure(if rng.bool() { AcquireFailure::PointTooOld } else { AcquireFailure::PointNotOnChain }),
            2 => M::Acquired,
            3 | 4 => M::Query(any(rng, size)),
            5 | 6 => M::Result(any(rng, size)),
            7 => M::ReAcquire(op(rng)),
            8 => M::Release,
            _ => M::Done,
        }
    }
}
pub(crate) type LocalTxMsg = old::localtxsubmission::Message<old::localtxsubmission::EraTx, old::localtxsubmission::TxValidationError>;
impl Gen for LocalTxMsg {
    fn gen(rng: &mut Rng, size: u8) -> Self {
        use old::localtxsubmission::{ApplyTxError, ConwayLedgerFailure, EraTx, Message as M, ShelleyBasedEra, TxValidationError};
        match rng.below(5) {
            0 | 1 => M::SubmitTx(EraTx(rng.below(8) as u16, blob(rng, size, 400))),
            2 => M::AcceptTx,
            3 => M::RejectTx(TxValidationError::ShelleyTxValidationError {
                error: ApplyTxError(
                    (0..rng.below(3)).map(|_| ConwayLedgerFailure::TxRefScriptsSizeTooBig(word(rng, size) as i64 >> 1, rng.below(1000) as i64)).collect(),
                ),
                era: ShelleyBasedEra::Conway,
            }),
            _ => M::Done,
        }
    }
}
impl Gen for old::txmonitor::Message {
    fn gen(rng: &mut Rng, size: u8) -> Self {
        use old::txmonitor::{MempoolSizeAndCapacity, Message as M};
        match rng.below(13) {
            0 => M::Acquire,
            1 => M::AwaitAcquire,
            2 => M::Acquired(word(rng, size)),
            3 => M::RequestHasTx(hex(&rng.bytes(if size == 0 { 0 } else { 32 }))),
            4 => M::RequestNextTx,
            5 => M::RequestSizeAndCapacity,
            6 => M::ResponseHasTx(rng.bool()),
            7 => M::ResponseNextTx(None),
            8 | 9 => M::ResponseNextTx(Some((rng.below(8) as u8, TagWrap::new(Bytes::from(blob(rng, size, 300)))))),
            10 => M::ResponseSizeAndCapacity(MempoolSizeAndCapacity {
                capacity_in_bytes: word(rng, size) as u32,
                size_in_bytes: word(rng, size) as u32,
                number_of_txs: word(rng, size) as u32,
            }),
            11 => M::Release,
            _ => M::Done,
        }
    }
}

// new stack: the protocols AnyMessage knows
const N2_PROTOS: [(&str, u16); 6] = [
    ("handshake", n2::handshake::CHANNEL_ID),
    ("chainsync", n2::chainsync::CHANNEL_ID),
    ("blockfetch", n2::blockfetch::CHANNEL_ID),
    ("txsubmission", n2::txsubmission::CHANNEL_ID),
    ("keepalive", n2::keepalive::CHANNEL_ID),
    ("peersharing", n2::peersharing::CHANNEL_ID),
];

pub(crate) fn gen_any_message(chan: u16, rng: &mut Rng, size: u8) -> AnyMessage {
    match chan {
        n2::handshake::CHANNEL_ID => {
            use n2::handshake::{n2n::VersionData, Message as M, RefuseReason as R, VersionTable};
            let data = |rng: &mut Rng| {
                if rng.bool() {
                    VersionData::new(word(rng, size), rng.bool(), Some(rng.below(2) as u8), Some(rng.bool()))
                } else {
                    VersionData::new(word(rng, size), rng.bool(), None, None)
                }
            };
            let table = |rng: &mut Rng| {
                let mut values = HashMap::new();
                for _ in 0..rng.below(if size == 0 { 2 } else { 6 }) {
                    values.insert(rng.range(7, 16), data(rng));
                }
                VersionTable { values }
            };
            AnyMessage::Handshake(match rng.below(4) {
                0 => M::Propose(table(rng)),
                1 => M::Accept(rng.range(7, 16), data(rng)),
                2 => M::Refuse(match rng.below(3) {
                    0 => R::VersionMismatch((0..rng.below(5)).map(|_| word(rng, size)).collect()),
                    1 => R::HandshakeDecodeError(word(rng, size), text(rng, size)),
                    _ => R::Refused(word(rng, size), text(rng, size)),
                }),
                _ => M::QueryReply(table(rng)),
            })
        }
        n2::chainsync::CHANNEL_ID => {
            use n2::chainsync::{HeaderContent, Message as M, Tip};
            let tip = |rng: &mut Rng| Tip(n2_point(rng, size), word(rng, size));
            AnyMessage::ChainSync(match rng.below(8) {
                0 => M::RequestNext,
                1 => M::AwaitReply,
                2 => {
                    let variant = rng.below(8) as u8;
                    let byron_prefix = if variant == 0 { Some((rng.below(2) as u8, word(rng, size))) } else { None };
                    M::RollForward(HeaderContent { variant, byron_prefix, cbor: blob(rng, size.min(1), 300) }, tip(rng))
                }
                3 => M::RollBackward(n2_point(rng, size), tip(rng)),
                4 => M::FindIntersect((0..rng.below(if size == 0 { 2 } else { 6 })).map(|_| n2_point(rng, size)).collect()),
                5 => M::IntersectFound(n2_point(rng, size), tip(rng)),
                6 => M::IntersectNotFound(tip(rng)),
                _ => M::Done,
            })
        }
        n2::blockfetch::CHANNEL_ID => {
            use n2::blockfetch::Message as M;
            AnyMessage::BlockFetch(match rng.below(7) {
                0 => M::RequestRange((n2_point(rng, size), n2_point(rng, size))),
                1 => M::ClientDone,
                2 => M::StartBatch,
                3 => M::NoBlocks,
                4 | 5 => M::Block(blob(rng, size, 500)),
                _ => M::BatchDone,
            })
        }
        n2::txsubmission::CHANNEL_ID => {
            use n2::txsubmission::{EraTxBody, EraTxId, Message as M, TxIdAndSize};
            let n = if size == 0 { rng.below(2) } else { rng.below(5) };
            let id = |rng: &mut Rng| EraTxId(rng.below(8) as u16, rng.bytes(if size == 0 { 1 } else { 32 }));
            AnyMessage::TxSubmission(match rng.below(6) {
                0 => M::Init,
                1 => M::RequestTxIds(rng.bool(), word(rng, size) as u16, word(rng, size) as u16),
                2 => M::ReplyTxIds((0..n).map(|_| TxIdAndSize(id(rng), word(rng, size) as u32)).collect()),
                3 => M::RequestTxs((0..n).map(|_| id(rng)).collect()),
                4 => M::ReplyTxs((0..n).map(|_| EraTxBody(rng.below(8) as u16, blob(rng, size, 300))).collect()),
                _ => M::Done,
            })
        }
        n2::keepalive::CHANNEL_ID => {
            use n2::keepalive::Message as M;
            AnyMessage::KeepAlive(match rng.below(3) {
                0 => M::KeepAlive(word(rng, size) as u16),
                1 => M::ResponseKeepAlive(word(rng, size) as u16),
                _ => M::Done,
            })
        }
        _ => {
            use n2::peersharing::{Message as M, PeerAddress};
            AnyMessage::PeerSharing(match rng.below(3) {
                0 => M::ShareRequest(word(rng, size) as u8),
                1 => M::SharePeers(
                    (0..rng.below(if size == 0 { 2 } else { 6 }))
                        .map(|_| {
                            if rng.bool() {
                                PeerAddress::V4(Ipv4Addr::from(rng.next_u64() as u32), word(rng, size) as u16)
                            } else {
                                PeerAddress::V6(Ipv6Addr::from(((rng.next_u64() as u128) << 64) | rng.next_u64() as u128), word(rng, size) as u16)
                            }
                        })
                        .collect(),
                ),
                _ => M::Done,
            })
        }
    }
}

// ------------------------------------------------------------------- streams
struct Stream {
    encs: Vec<Vec<u8>>,
    kinds: Vec<String>,
}
impl Stream {
    fn bytes(&self) -> Vec<u8> {
        self.encs.concat()
    }
    fn total(&self) -> usize {
        self.encs.iter().map(|e| e.len()).sum()
    }
    fn json(&self) -> Value {
        json!({"lens": self.encs.iter().map(|e| e.len()).collect::<Vec<_>>(),
               "ids": self.encs.iter().map(|e| digest(e)).collect::<Vec<_>>(),
               "kinds": self.kinds})
    }
    /// how many messages end at or before byte offset `fed` (drives *when* the
    /// blocking recv_full_msg is called; the verdict is TLC's)
    fn complete(&self, fed: usize) -> usize {
        let mut end = 0;
        let mut k = 0;
        for e in &self.encs {
            end += e.len();
            if end <= fed {
                k += 1;
            }
        }
        k
    }
    fn ends(&self) -> Vec<usize> {
        let mut end = 0;
        self.encs
            .iter()
            .map(|e| {
                end += e.len();
                end
            })
            .collect()
    }
}

struct Cx {
    rng: Rng,
    out: Ndjson,
    notes: Vec<Value>,
    sid: u64,
    exh: usize,        // streams up to this many bytes get all cut sets
    long_streams: u64, // longer streams per protocol
    cover_streams: u64, // streams of 4 messages drawn so that every message kind shows up
    broken: u64,        // streams abandoned after an error / starvation (each costs a timeout)
    cancel_ms: u64,     // old stack: timeout of the extra, cancelled recv_full_msg polls (0 = none)
    big: bool,         // include streams spanning several 64 KiB segments
    rt: tokio::runtime::Runtime,
    stats: HashMap<String, u64>,
}

/// One encodable, self-consistent message (decodes alone to something that
/// re-encodes to the same bytes, consuming everything); otherwise the value is
/// outside C21's premise (a C22 matter) and is skipped with a note.
fn baseline<M: Fragment>(enc: &[u8]) -> Result<(), String> {
    let r = catch(|| {
        let mut d = minicbor::Decoder::new(enc);
        let m: M = d.decode().map_err(|e| format!("decode: {e}"))?;
        if d.position() != enc.len() {
            return Err(format!("decode consumed {} of {} bytes", d.position(), enc.len()));
        }
        let re = minicbor::to_vec(&m).map_err(|e| format!("re-encode: {e}"))?;
        if re != enc {
            return Err("re-encoding differs".to_string());
        }
        Ok(())
    });
    match r {
        Ok(x) => x,
        Err(p) => Err(format!("panic: {p}")),
    }
}

fn make_stream<M: Fragment + Debug>(cx: &mut Cx, proto: &str, gen: &mut dyn FnMut(&mut Rng, u8) -> M, n: usize, size: u8, max_total: usize) -> Stream {
    let mut s = Stream { encs: vec![], kinds: vec![] };
    let mut tries = 0;
    while s.encs.len() < n && tries < 400 {
        tries += 1;
        let m = gen(&mut cx.rng, size);
        let kind = kind_of(&format!("{m:?}"));
        let enc = match catch(|| minicbor::to_vec(&m)) {
            Ok(Ok(e)) => e,
            other => {
                cx.notes.push(json!({"proto": proto, "kind": kind, "skipped": format!("encode failed: {:?}", other.err())}));
                continue;
            }
        };
        if let Err(why) = baseline::<M>(&enc) {
            let note = json!({"proto": proto, "kind": kind, "skipped": why});
            if !cx.notes.contains(&note) {
                cx.notes.push(note);
            }
            continue;
        }
        if s.total() + enc.len() > max_total {
            continue;
        }
        s.encs.push(enc);
        s.kinds.push(kind);
    }
    s
}

/// Segment lengths for a set of cut positions (strictly inside 1..total),
/// re-cut so that no segment exceeds the 65535-byte segment maximum.
fn segs_of(total: usize, cuts: &[usize]) -> Vec<usize> {
    let mut c: Vec<usize> = cuts.iter().copied().filter(|x| *x > 0 && *x < total).collect();
    c.sort();
    c.dedup();
    let mut segs = Vec::new();
    let mut prev = 0;
    for x in c.into_iter().chain([total]) {
        let mut n = x - prev;
        while n > 65535 {
            segs.push(65535);
            n -= 65535;
        }
        if n > 0 {
            segs.push(n);
        }
        prev = x;
    }
    segs
}

/// The cut sets tried for one stream.
fn cut_sets(rng: &mut Rng, s: &Stream, exh: usize, one_byte_max: usize, focus: bool) -> Vec<Vec<usize>> {
    let total = s.total();
    let mut sets: Vec<Vec<usize>> = Vec::new();
    if total == 0 {
        return sets;
    }
    if total <= exh {
        for mask in 0u64..(1u64 << (total - 1)) {
            sets.push((1..total).filter(|i| mask >> (i - 1) & 1 == 1).collect());
        }
        return sets;
    }
    if focus {
        // coverage streams: cuts inside the head of every message (where the variant is decided),
        // just before its end and at its end; a few double / random cut sets; 1-byte segments
        sets.push(vec![]);
        let mut singles = Vec::new();
        let mut start = 0;
        for end in s.ends() {
            for d in 1..=4 {
                singles.push(start + d);
            }
            singles.push(end.saturating_sub(2));
            singles.push(end.saturating_sub(1));
            singles.push(end);
            start = end;
        }
        singles.retain(|x| *x > 0 && *x < total);
        singles.sort();
        singles.dedup();
        for c in &singles {
            sets.push(vec![*c]);
        }
        for _ in 0..4 {
            sets.push(vec![*rng.pick(&singles), *rng.pick(&singles)]);
        }
        for _ in 0..2 {
            let den = *rng.pick(&[2u64, 5, 20]);
            let mut c: Vec<usize> = (1..total).filter(|_| rng.below(den) == 0).collect();
            c.truncate(120);
            sets.push(c);
        }
        if total <= one_byte_max {
            sets.push((1..total).collect());
        }
        return sets;
    }
    sets.push(vec![]); // unsplit
    // single cuts: everywhere for moderate streams; else around message boundaries and heads + random
    let mut singles: Vec<usize> = if total <= 64 { (1..total).collect() } else { vec![] };
    if total > 64 {
        let mut start = 0;
        for end in s.ends() {
            for d in 1..=6 {
                singles.push(start + d);
            }
            for d in 0..=2 {
                singles.push(end.saturating_sub(d));
                singles.push(end + d);
            }
            start = end;
        }
        for _ in 0..12 {
            singles.push(rng.range(1, total as u64 - 1) as usize);
        }
        singles.retain(|x| *x > 0 && *x < total);
        singles.sort();
        singles.dedup();
    }
    for c in &singles {
        sets.push(vec![*c]);
    }
    // double cuts
    if total <= 12 {
        for a in 1..total {
            for b in a + 1..total {
                sets.push(vec![a, b]);
            }
        }
    } else {
        for _ in 0..16 {
            let a = *rng.pick(&singles);
            let b = if rng.bool() { *rng.pick(&singles) } else { rng.range(1, total as u64 - 1) as usize };
            sets.push(vec![a, b]);
        }
    }
    // 1-byte segments
    if total <= one_byte_max {
        sets.push((1..total).collect());
    }
    // random cut sets of various densities
    for _ in 0..6 {
        let den = *rng.pick(&[2u64, 3, 8, 32, 200]);
        let mut c: Vec<usize> = (1..total).filter(|_| rng.below(den) == 0).collect();
        if c.len() > 120 {
            c.truncate(120);
        }
        sets.push(c);
    }
    // the natural split of send_msg_chunks for multi-segment messages
    if total > 65535 {
        let mut c = Vec::new();
        let mut start = 0;
        for e in &s.encs {
            let mut off = 65535;
            while off < e.len() {
                c.push(start + off);
                off += 65535;
            }
            start += e.len();
            c.push(start);
        }
        sets.push(c);
    }
    sets
}

fn bump(cx: &mut Cx, k: &str, n: u64) {
    *cx.stats.entry(k.to_string()).or_insert(0) += n;
}

// ----------------------------------------------------------- old stack driver
const OLD_PROTO_ID: u16 = 5;

/// `cancel_ms` > 0: whenever the bytes fed so far end in the middle of a message, the receiver is also polled
/// under a short timeout and the future dropped (a client using select! / timeout around recv_full_msg):
/// nothing may be handed over and nothing already received may be lost.
async fn old_cutset<M: Fragment>(s: &Stream, segs: &[usize], cancel_ms: u64, ev: &mut Vec<Value>) {
    let (sa, sb) = tokio::net::UnixStream::pair().unwrap_or_else(|e| die(&format!("socketpair: {e}")));
    let mut pa = Plexer::new(Bearer::Unix(sa));
    let mut pb = Plexer::new(Bearer::Unix(sb));
    let mut tx = pa.subscribe_client(OLD_PROTO_ID);
    let mut rx = ChannelBuffer::new(pb.subscribe_server(OLD_PROTO_ID));
    let ra = pa.spawn();
    let rb = pb.spawn();
    let bytes = s.bytes();
    let mut fed = 0usize;
    let mut delivered = 0usize;
    let patience = Duration::from_secs(10);
    let mut broken = false;
    let ends = s.ends();
    'segs: for n in segs {
        let seg = bytes[fed..fed + n].to_vec();
        if let Err(e) = tx.enqueue_chunk(seg).await {
            ev.push(json!({"ev": "error", "at": "enqueue_chunk", "err": e.to_string()}));
            broken = true;
            break;
        }
        fed += n;
        let want = s.complete(fed); // when to call the blocking receiver; not a verdict
        let mut out = Vec::new();
        while delivered < want {
            match tokio::time::timeout(patience, rx.recv_full_msg::<M>()).await {
                Ok(Ok(m)) => {
                    let id = match catch(|| minicbor::to_vec(&m)) {
                        Ok(Ok(e)) => digest(&e) as i64,
                        _ => -1,
                    };
                    out.push(id);
                    delivered += 1;
                }
                Ok(Err(e)) => {
                    ev.push(json!({"ev": "seg", "c": 1, "n": n, "out": out}));
                    ev.push(json!({"ev": "error", "at": "recv_full_msg", "err": format!("{e:?}"), "fed": fed, "delivered": delivered}));
                    broken = true;
                    break 'segs;
                }
                Err(_) => {
                    ev.push(json!({"ev": "seg", "c": 1, "n": n, "out": out}));
                    ev.push(json!({"ev": "starved", "fed": fed, "delivered": delivered, "after_s": patience.as_secs()}));
                    broken = true;
                    break 'segs;
                }
            }
        }
        if cancel_ms > 0 && !ends.contains(&fed) {
            match tokio::time::timeout(Duration::from_millis(cancel_ms), rx.recv_full_msg::<M>()).await {
                Err(_) => {} // dropped between two segments of a message
                Ok(Ok(m)) => {
                    // a message although its last byte was not fed: logged, TLC rejects
                    out.push(minicbor::to_vec(&m).map(|e| digest(&e) as i64).unwrap_or(-1));
                    delivered += 1;
                }
                Ok(Err(e)) => {
                    ev.push(json!({"ev": "seg", "c": 1, "n": n, "out": out}));
                    ev.push(json!({"ev": "error", "at": "recv_full_msg (cancelled poll)", "err": format!("{e:?}"), "fed": fed, "delivered": delivered}));
                    broken = true;
                    break 'segs;
                }
            }
        }
        ev.push(json!({"ev": "seg", "c": 1, "n": n, "out": out}));
    }
    ra.abort().await;
    rb.abort().await;
    if !broken {
        // nothing may be left behind: with the plexers gone the receiver must report a closed
        // channel, not another message and not a decoding error
        match tokio::time::timeout(Duration::from_secs(5), rx.recv_full_msg::<M>()).await {
            Ok(Ok(m)) => {
                let id = minicbor::to_vec(&m).map(|e| digest(&e) as i64).unwrap_or(-1);
                ev.push(json!({"ev": "extra", "id": id}));
            }
            Ok(Err(pallas_network::multiplexer::Error::AgentDequeue)) | Err(_) => {}
            Ok(Err(e)) => ev.push(json!({"ev": "error", "at": "after-end", "err": format!("{e:?}")})),
        }
        ev.push(json!({"ev": "end"}));
    }
}

fn old_proto<M: Fragment + Debug + Gen>(cx: &mut Cx, proto: &str) {
    if cx.broken >= 8 {
        return;
    }
    // (messages, size class, max bytes, coverage stream?)
    let mut plan: Vec<(usize, u8, usize, bool)> = vec![(3, 0, cx.exh, false)];
    for _ in 0..cx.cover_streams {
        plan.push((4, 1, 3000, true));
    }
    for _ in 0..cx.long_streams {
        plan.push((cx.rng.range(3, 6) as usize, 1, 2000, false));
    }
    if cx.big {
        plan.push((3, 2, 400_000, false));
    }
    let mut seen: std::collections::HashSet<String> = std::collections::HashSet::new();
    for (n, size, max_total, cover) in plan {
        let mut g = |rng: &mut Rng, sz: u8| {
            if cover {
                // draw until a message kind not used yet shows up
                let mut m = M::gen(rng, 1);
                for _ in 0..300 {
                    if seen.insert(kind_of(&format!("{m:?}"))) {
                        break;
                    }
                    m = M::gen(rng, 1);
                }
                return m;
            }
            // big streams: mostly ordinary messages around one or two large ones
            let sz = if sz == 2 && rng.chance(1, 2) { 1 } else { sz };
            M::gen(rng, sz)
        };
        let s = make_stream::<M>(cx, proto, &mut g, n, size, max_total);
        if s.encs.is_empty() {
            continue;
        }
        cx.sid += 1;
        let sid = cx.sid;
        cx.out.ev(json!({"ev": "stream", "stack": "old", "proto": proto, "sid": sid, "chans": [s.json()]}));
        let sets = cut_sets(&mut cx.rng, &s, cx.exh, 150, cover);
        for (k, cuts) in sets.iter().enumerate() {
            let segs = segs_of(s.total(), cuts);
            let mut ev = vec![json!({"ev": "cuts", "sid": sid, "k": k})];
            let cancel = if k % 2 == 1 && segs.len() <= 6 { cx.cancel_ms } else { 0 };
            cx.rt.block_on(old_cutset::<M>(&s, &segs, cancel, &mut ev));
            if cancel > 0 {
                bump(cx, "old_cutsets_with_cancelled_polls", 1);
            }
            let bad = ev.iter().any(|e| matches!(e["ev"].as_str(), Some("starved") | Some("error") | Some("extra")));
            for e in ev {
                cx.out.ev(e);
            }
            if bad {
                // TLC rejects this stream at that event; the remaining cut sets would only cost time-outs
                cx.broken += 1;
                break;
            }
        }
        if cx.broken >= 8 {
            return; // the check handles at most that many rejections per run
        }
        bump(cx, "old_streams", 1);
        bump(cx, "old_cutsets", sets.len() as u64);
    }
}

// ----------------------------------------------------------- new stack drivers
fn id_of(m: &AnyMessage) -> i64 {
    match catch(|| m.payload()) {
        Ok(e) => digest(&e) as i64,
        Err(_) => -1,
    }
}

fn new_direct(chan: u16, s: &Stream, segs: &[usize], ev: &mut Vec<Value>) {
    let bytes = s.bytes();
    let mut payload: Vec<u8> = Vec::new();
    let mut fed = 0;
    for n in segs {
        payload.extend_from_slice(&bytes[fed..fed + n]);
        fed += n;
        let mut out = Vec::new();
        let r = catch(|| {
            // the loop of BearerReadHalf::read_full_msgs
            while let Some(m) = AnyMessage::from_payload(chan, &mut payload) {
                out.push(id_of(&m));
                if out.len() > 10_000 {
                    break;
                }
            }
        });
        ev.push(json!({"ev": "seg", "c": 1, "n": n, "out": out, "left": payload.len()}));
        if let Err(p) = r {
            ev.push(json!({"ev": "panic", "msg": p}));
            return;
        }
    }
    ev.push(json!({"ev": "end"}));
}

/// Over a real socket: `streams` (1 or 2 channels) are written segment by
/// segment (interleaved at random when there are two) and read back with
/// read_full_msgs, one call per segment.
async fn new_sock(chans: &[u16], streams: &[&Stream], segs: &[Vec<usize>], mode: u16, rng: &mut Rng, ev: &mut Vec<Value>) {
    use pallas_network2::bearer::Bearer as B2;
    let (sa, sb) = tokio::net::UnixStream::pair().unwrap_or_else(|e| die(&format!("socketpair: {e}")));
    let (_ra, mut w) = B2::Unix(sa).into_split();
    let (mut r, _wb) = B2::Unix(sb).into_split();
    let mut partial: HashMap<u16, Vec<u8>> = HashMap::new();
    let bytes: Vec<Vec<u8>> = streams.iter().map(|s| s.bytes()).collect();
    let mut fed = vec![0usize; streams.len()];
    let mut next = vec![0usize; streams.len()];
    loop {
        let live: Vec<usize> = (0..streams.len()).filter(|i| next[*i] < segs[*i].len()).collect();
        if live.is_empty() {
            break;
        }
        let i = *rng.pick(&live);
        let n = segs[i][next[i]];
        next[i] += 1;
        let seg = &bytes[i][fed[i]..fed[i] + n];
        fed[i] += n;
        if let Err(e) = w.write_segment(chans[i] | mode, 0, seg).await {
            ev.push(json!({"ev": "error", "at": "write_segment", "err": e.to_string()}));
            return;
        }
        match tokio::time::timeout(Duration::from_secs(10), r.read_full_msgs::<AnyMessage>(&mut partial)).await {
            Ok(Ok(msgs)) => {
                // messages are attributed to the channel they claim to belong to
                let mut outs: Vec<Vec<i64>> = vec![vec![]; streams.len()];
                let mut stray = false;
                for m in &msgs {
                    match chans.iter().position(|c| *c == m.channel()) {
                        Some(c) => outs[c].push(id_of(m)),
                        None => stray = true,
                    }
                }
                let left = partial.get(&chans[i]).map(|p| p.len()).unwrap_or(0);
                ev.push(json!({"ev": "seg", "c": i + 1, "n": n, "out": outs[i], "left": left}));
                for (c, o) in outs.iter().enumerate() {
                    if c != i && !o.is_empty() {
                        ev.push(json!({"ev": "seg", "c": c + 1, "n": 0, "out": o, "left": -1}));
                    }
                }
                if stray {
                    ev.push(json!({"ev": "error", "at": "read_full_msgs", "err": "message of a channel that was not fed"}));
                    return;
                }
            }
            Ok(Err(e)) => {
                ev.push(json!({"ev": "error", "at": "read_full_msgs", "err": e.to_string()}));
                return;
            }
            Err(_) => {
                ev.push(json!({"ev": "starved", "at": "read_full_msgs"}));
                return;
            }
        }
    }
    // per-channel partial buffers must all be gone
    let rest: usize = partial.values().map(|p| p.len()).sum();
    ev.push(json!({"ev": "end", "rest": rest}));
}

fn new_proto(cx: &mut Cx, idx: usize) {
    if cx.broken >= 8 {
        return;
    }
    let (proto, chan) = N2_PROTOS[idx];
    let mut plan: Vec<(usize, u8, usize, bool)> = vec![(3, 0, cx.exh, false)];
    for _ in 0..cx.cover_streams {
        plan.push((4, 1, 3000, true));
    }
    for _ in 0..cx.long_streams {
        plan.push((cx.rng.range(3, 6) as usize, 1, 2000, false));
    }
    if cx.big && (proto == "blockfetch" || proto == "txsubmission") {
        plan.push((3, 2, 400_000, false));
    }
    let mut seen: std::collections::HashSet<String> = std::collections::HashSet::new();
    for (n, size, max_total, cover) in plan {
        let mut g = |rng: &mut Rng, sz: u8| {
            if cover {
                let mut m = gen_any_message(chan, rng, 1);
                for _ in 0..300 {
                    let dbg = format!("{m:?}");
                    if seen.insert(kind_of(dbg.split_once('(').map(|x| x.1).unwrap_or(&dbg))) {
                        break;
                    }
                    m = gen_any_message(chan, rng, 1);
                }
                return m;
            }
            let sz = if sz == 2 && rng.chance(1, 2) { 1 } else { sz };
            gen_any_message(chan, rng, sz)
        };
        let s = make_stream_any(cx, proto, &mut g, n, size, max_total);
        if s.encs.is_empty() {
            continue;
        }
        cx.sid += 1;
        let sid = cx.sid;
        let sets = cut_sets(&mut cx.rng, &s, cx.exh, 400, cover);
        cx.out.ev(json!({"ev": "stream", "stack": "new", "proto": proto, "sid": sid, "chans": [s.json()]}));
        for (k, cuts) in sets.iter().enumerate() {
            let segs = segs_of(s.total(), cuts);
            let mut ev = vec![json!({"ev": "cuts", "sid": sid, "k": k})];
            new_direct(chan, &s, &segs, &mut ev);
            for e in ev {
                cx.out.ev(e);
            }
        }
        bump(cx, "new_streams", 1);
        bump(cx, "new_cutsets", sets.len() as u64);
        // the same stream over a socket (every 3rd cut set), together with a second channel
        let (proto2, chan2) = N2_PROTOS[(idx + 1 + cx.rng.below(5) as usize) % 6];
        let mut g2 = |rng: &mut Rng, sz: u8| gen_any_message(chan2, rng, sz);
        let s2 = make_stream_any(cx, proto2, &mut g2, 3, 1, 600);
        cx.sid += 1;
        let sid = cx.sid;
        let two = !s2.encs.is_empty() && chan2 != chan;
        let mut chans_json = vec![s.json()];
        if two {
            chans_json.push(s2.json());
        }
        cx.out.ev(json!({"ev": "stream", "stack": "sock", "proto": if two { format!("{proto}+{proto2}") } else { proto.to_string() }, "sid": sid, "chans": chans_json}));
        let sets2 = if two { cut_sets(&mut cx.rng, &s2, cx.exh, 400, true) } else { vec![] };
        let mut nsock = 0;
        for (k, cuts) in sets.iter().enumerate().filter(|x| x.0 % 3 == 0) {
            let segs = segs_of(s.total(), cuts);
            let mut ev = vec![json!({"ev": "cuts", "sid": sid, "k": k})];
            let mode = if cx.rng.bool() { 0x8000 } else { 0 };
            if two {
                let cuts2: &Vec<usize> = cx.rng.pick(&sets2);
                let segs2 = segs_of(s2.total(), cuts2);
                let mut r = Rng::new(cx.rng.next_u64());
                cx.rt.block_on(new_sock(&[chan, chan2], &[&s, &s2], &[segs, segs2], mode, &mut r, &mut ev));
            } else {
                let mut r = Rng::new(cx.rng.next_u64());
                cx.rt.block_on(new_sock(&[chan], &[&s], &[segs], mode, &mut r, &mut ev));
            }
            let bad = ev.iter().any(|e| matches!(e["ev"].as_str(), Some("starved") | Some("error")));
            for e in ev {
                cx.out.ev(e);
            }
            nsock += 1;
            if bad {
                cx.broken += 1;
                break;
            }
        }
        if cx.broken >= 8 {
            return;
        }
        bump(cx, "sock_streams", 1);
        bump(cx, "sock_cutsets", nsock);
    }
}

fn make_stream_any(cx: &mut Cx, proto: &str, gen: &mut dyn FnMut(&mut Rng, u8) -> AnyMessage, n: usize, size: u8, max_total: usize) -> Stream {
    // AnyMessage is not a Fragment itself: encode through Message::payload, baseline through from_payload
    let chan = N2_PROTOS.iter().find(|p| p.0 == proto).map(|p| p.1).unwrap_or(0);
    let mut s = Stream { encs: vec![], kinds: vec![] };
    let mut tries = 0;
    while s.encs.len() < n && tries < 400 {
        tries += 1;
        let m = gen(&mut cx.rng, size);
        let dbg = format!("{m:?}");
        let kind = kind_of(dbg.split_once('(').map(|x| x.1).unwrap_or(&dbg));
        let enc = match catch(|| m.payload()) {
            Ok(e) => e,
            Err(p) => {
                cx.notes.push(json!({"proto": proto, "kind": kind, "skipped": format!("encode panicked: {p}")}));
                continue;
            }
        };
        let mut buf = enc.clone();
        let base = catch(|| AnyMessage::from_payload(chan, &mut buf).map(|m| m.payload()));
        let ok = matches!(&base, Ok(Some(re)) if *re == enc) && buf.is_empty();
        if !ok {
            let note = json!({"proto": proto, "kind": kind, "stack": "new", "skipped": "does not decode alone to a value with the same encoding"});
            if !cx.notes.contains(&note) {
                cx.notes.push(note);
            }
            continue;
        }
        if s.total() + enc.len() > max_total {
            continue;
        }
        s.encs.push(enc);
        s.kinds.push(kind);
    }
    s
}

pub fn trace(args: &Args) {
    let rt = tokio::runtime::Builder::new_multi_thread()
        .worker_threads(args.num("threads", 2) as usize)
        .enable_all()
        .build()
        .unwrap_or_else(|e| die(&format!("runtime: {e}")));
    let mut cx = Cx {
        rng: Rng::new(args.seed()),
        out: Ndjson::create(args.get("out")),
        notes: vec![],
        sid: 0,
        exh: args.num("exh", 7) as usize,
        long_streams: args.num("long", 1),
        cover_streams: args.num("cover", 3),
        broken: 0,
        cancel_ms: args.num("cancel", 3),
        big: args.num("big", 1) == 1,
        rt,
        stats: HashMap::new(),
    };
    let rounds = args.num("rounds", 1);
    let only = args.opt("only").map(|s| s.to_string());
    let want = |name: &str| only.as_deref().map(|o| o.split(',').any(|x| x == name)).unwrap_or(true);
    for _ in 0..rounds {
        if want("old") {
            old_proto::<old::chainsync::Message<old::chainsync::HeaderContent>>(&mut cx, "chainsync-n2n");
            old_proto::<old::chainsync::Message<old::chainsync::BlockContent>>(&mut cx, "chainsync-n2c");
            old_proto::<old::blockfetch::Message>(&mut cx, "blockfetch");
            old_proto::<old::txsubmission::Message<old::txsubmission::EraTxId, old::txsubmission::EraTxBody>>(&mut cx, "txsubmission");
            old_proto::<old::keepalive::Message>(&mut cx, "keepalive");
            old_proto::<old::peersharing::Message>(&mut cx, "peersharing");
            old_proto::<old::handshake::Message<old::handshake::n2n::VersionData>>(&mut cx, "handshake-n2n");
            old_proto::<old::handshake::Message<old::handshake::n2c::VersionData>>(&mut cx, "handshake-n2c");
            old_proto::<old::localstate::Message>(&mut cx, "localstate");
            old_proto::<LocalTxMsg>(&mut cx, "localtxsubmission");
            old_proto::<old::txmonitor::Message>(&mut cx, "txmonitor");
        }
        if want("new") {
            for idx in 0..N2_PROTOS.len() {
                new_proto(&mut cx, idx);
            }
        }
    }
    let Cx { out, notes, stats, rt, .. } = cx;
    let lines = out.finish();
    if let Some(p) = args.opt("notes") {
        let mut n = Ndjson::create(p);
        n.ev(json!({"events": lines, "stats": stats}));
        for x in notes {
            n.ev(x);
        }
        n.finish();
    }
    rt.shutdown_timeout(Duration::from_secs(1));
}
