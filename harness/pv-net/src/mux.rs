//! C20 — the real multiplexers under concurrent agents, logged for spec/net/MuxProps.tla.
//!
//! `mux-trace`: per run, two `Plexer`s over a `UnixStream` pair on a
//! multi-thread runtime, a random topology of agents (both roles, both
//! directions, several protocols, optionally an orphan sender), chunks of
//! 0..=65535 bytes. Additional runs drive the network2 bearer
//! (`write_segment` / `read_segment`) the same way.
//!
//! Ordering rule (DESIGN §4.2): one global atomic ticket counter; the `enq`
//! ticket is taken BEFORE `enqueue_chunk` is called, the `deq` ticket AFTER
//! `dequeue_chunk` returned. Events are merged by ticket — never by wall clock.
//!
//! The harness decides nothing: it logs what was handed to the multiplexer and
//! what came out (length, checksum, embedded tag), TLC decides on the log.
use pallas_network::multiplexer::{AgentChannel, Bearer, Plexer};
use pv_core::*;
use serde_json::Value;
use std::sync::atomic::{AtomicU64, Ordering};
use std::sync::{Arc, Mutex};
use std::time::Duration;

pub(crate) type Log = Arc<Mutex<Vec<(u64, Value)>>>;

#[derive(Clone, Debug)]
struct Chan {
    side: &'static str,
    proto: u16,
    role: &'static str,
}
impl Chan {
    fn json(&self) -> Value {
        json!({"side": self.side, "proto": self.proto, "role": self.role})
    }
}

#[derive(Clone, Debug)]
struct AgentSpec {
    idx: u8,
    chan: Chan,
    quota: u32,       // chunks to send (the last one carries the FIN flag); 0 = silent
    peer_sends: bool, // keep dequeuing until the peer's FIN shows up
    slow_start_ms: u64,
    /// back-pressure: do not start before agent `.0` has enqueued `.1` chunks (bounded wait), so that
    /// this agent's egress queue (100) fills up and the demuxer has to block on it
    lazy_until: Option<(u8, u32)>,
    seed: u64,
}

const TAG_LEN: usize = 5;

fn checksum(b: &[u8]) -> u32 {
    let mut h: u32 = 0x811c_9dc5;
    for x in b {
        h ^= *x as u32;
        h = h.wrapping_mul(0x0100_0193);
    }
    h & 0x3fff_ffff
}

/// What both ends log about a payload (the *same* projection on both sides).
fn project(p: &[u8]) -> (Value, bool) {
    let (tag, fin) = if p.len() >= TAG_LEN {
        let seq = ((p[1] as u32) << 16) | ((p[2] as u32) << 8) | p[3] as u32;
        (json!([p[0], seq]), p[4] == 1)
    } else {
        (json!([]), false)
    };
    (json!({"tag": tag, "len": p.len(), "sum": checksum(p)}), fin)
}

fn pick_len(rng: &mut Rng) -> usize {
    match rng.below(10) {
        0..=4 => rng.below(257) as usize,
        5..=6 => *rng.pick(&[65535usize, 65534, 65533, 0, 1, 4, 5, 6, 8, 255, 256, 32768]),
        _ => rng.below(65536) as usize,
    }
}

fn make_payload(rng: &mut Rng, idx: u8, seq: u32, fin: bool) -> Vec<u8> {
    let len = if fin { TAG_LEN + rng.below(40) as usize } else { pick_len(rng) };
    let mut p = vec![0u8; len];
    // cheap pseudo-random fill (xorshift on words), then the tag in front
    let mut x = rng.next_u64() | 1;
    for c in p.chunks_mut(8) {
        x ^= x << 13;
        x ^= x >> 7;
        x ^= x << 17;
        let b = x.to_le_bytes();
        c.copy_from_slice(&b[..c.len()]);
    }
    if len >= TAG_LEN {
        p[0] = idx;
        p[1] = (seq >> 16) as u8;
        p[2] = (seq >> 8) as u8;
        p[3] = seq as u8;
        p[4] = fin as u8;
    }
    p
}

pub(crate) fn merge(mut a: Value, b: Value) -> Value {
    for (k, v) in b.as_object().unwrap() {
        a[k] = v.clone();
    }
    a
}

pub(crate) async fn jitter(rng: &mut Rng) {
    match rng.below(16) {
        0..=4 => tokio::task::yield_now().await,
        5 => tokio::time::sleep(Duration::from_micros(rng.below(400))).await,
        _ => {}
    }
}

/// One agent of the old stack: alternates between sending and receiving on its
/// channel. Calls are wrapped in short timeouts (both mpsc operations are
/// cancel-safe: a cancelled `send` has not sent, a cancelled `recv` has not
/// received) so that two agents sending to each other can never dead-lock by
/// both sitting in `enqueue_chunk` — head-of-line blocking is not a C20 matter.
async fn agent(mut ch: AgentChannel, spec: AgentSpec, ticket: Arc<AtomicU64>, log: Log, sent: Arc<Vec<AtomicU64>>) -> AgentChannel {
    let mut rng = Rng::new(spec.seed);
    let mut seq: u32 = 0;
    let mut expecting = spec.peer_sends;
    let mut pending: Option<Vec<u8>> = None;
    let cj = spec.chan.json();
    let patience = Duration::from_millis(3);
    if spec.slow_start_ms > 0 {
        tokio::time::sleep(Duration::from_millis(spec.slow_start_ms)).await;
    }
    if let Some((peer, n)) = spec.lazy_until {
        let t0 = std::time::Instant::now();
        while sent[peer as usize].load(Ordering::SeqCst) < n as u64 && t0.elapsed() < Duration::from_millis(150) {
            tokio::time::sleep(Duration::from_millis(1)).await;
        }
        tokio::time::sleep(Duration::from_millis(5)).await; // let the pipeline pile up behind the full queue
    }
    while seq < spec.quota || expecting {
        jitter(&mut rng).await;
        let send = seq < spec.quota && (!expecting || rng.bool());
        if send {
            let fin = seq + 1 == spec.quota;
            let p = pending.take().unwrap_or_else(|| make_payload(&mut rng, spec.idx, seq + 1, fin));
            let (proj, fin_flag) = project(&p);
            let t = ticket.fetch_add(1, Ordering::SeqCst); // BEFORE the call
            match tokio::time::timeout(patience, ch.enqueue_chunk(p.clone())).await {
                Ok(Ok(())) => {
                    log.lock().unwrap().push((t, merge(json!({"ev": "enq", "t": t, "ch": cj, "fin": fin_flag}), proj)));
                    if DETAIL.load(Ordering::Relaxed) {
                        let t2 = ticket.fetch_add(1, Ordering::SeqCst);
                        log.lock().unwrap().push((t2, json!({"ev": "enq_done", "t": t2, "ch": cj})));
                    }
                    seq += 1;
                    sent[spec.idx as usize].fetch_add(1, Ordering::SeqCst);
                }
                Ok(Err(e)) => {
                    log.lock().unwrap().push((t, json!({"ev": "enq_err", "t": t, "ch": cj, "err": e.to_string()})));
                    break;
                }
                Err(_) => {
                    RETRIES.fetch_add(1, Ordering::Relaxed);
                    pending = Some(p) // queue full: not sent, retry later
                }
            }
        } else {
            if DETAIL.load(Ordering::Relaxed) {
                let t0 = ticket.fetch_add(1, Ordering::SeqCst);
                log.lock().unwrap().push((t0, json!({"ev": "deq_start", "t": t0, "ch": cj})));
            }
            match tokio::time::timeout(patience, ch.dequeue_chunk()).await {
                Ok(Ok(p)) => {
                    let t = ticket.fetch_add(1, Ordering::SeqCst); // AFTER the return
                    let (proj, fin) = project(&p);
                    log.lock().unwrap().push((t, merge(json!({"ev": "deq", "t": t, "ch": cj, "fin": fin}), proj)));
                    if fin {
                        expecting = false;
                    }
                }
                Ok(Err(e)) => {
                    let t = ticket.fetch_add(1, Ordering::SeqCst);
                    log.lock().unwrap().push((t, json!({"ev": "deq_err", "t": t, "ch": cj, "err": e.to_string()})));
                    break;
                }
                Err(_) => {
                    if DETAIL.load(Ordering::Relaxed) {
                        let t = ticket.fetch_add(1, Ordering::SeqCst);
                        log.lock().unwrap().push((t, json!({"ev": "deq_none", "t": t, "ch": cj})));
                    }
                }
            }
        }
    }
    ch
}

static RETRIES: AtomicU64 = AtomicU64::new(0);
/// `--detail 1`: also log when an enqueue returned and when a dequeue call started / gave up, so that
/// TraceMux can treat every call as an interval (partial order) instead of a point.
static DETAIL: std::sync::atomic::AtomicBool = std::sync::atomic::AtomicBool::new(false);

#[derive(Clone, Copy)]
pub(crate) struct Limits {
    pub(crate) idle: Duration,     // no new event for this long => the run is stuck
    pub(crate) deadline: Duration, // absolute cap
}

/// Wait until every task finished; give up when the log stops growing.
/// Returns true when it gave up (the quiesce event then names the stuck agents
/// and TLC decides whether something enqueued was never delivered).
pub(crate) async fn wait_all<T>(hs: &[&tokio::task::JoinHandle<T>], log: &Log, limits: Limits) -> bool {
    let start = std::time::Instant::now();
    let mut last_len = 0usize;
    let mut last_change = std::time::Instant::now();
    loop {
        if hs.iter().all(|h| h.is_finished()) {
            return false;
        }
        tokio::time::sleep(Duration::from_millis(20)).await;
        let n = log.lock().unwrap().len();
        if n != last_len {
            last_len = n;
            last_change = std::time::Instant::now();
        }
        if last_change.elapsed() > limits.idle || start.elapsed() > limits.deadline {
            return true;
        }
    }
}

struct Topology {
    agents: Vec<AgentSpec>,
}

/// Random topology: `npairs` connected pairs (protocol, which side is the client,
/// who sends) + optionally one orphan sender whose peer never subscribed.
fn topology(rng: &mut Rng, max_chunks: u32, allow_orphan: bool, pressure: bool) -> Topology {
    let protos: [u16; 8] = [0, 2, 3, 5, 7, 8, 0x7fff, 0x1234];
    let npairs = rng.range(2, 4) as usize;
    let mut used: Vec<(u16, &'static str)> = Vec::new(); // (proto, side of the client)
    let mut agents = Vec::new();
    let mut idx = 0u8;
    let quota = |rng: &mut Rng| -> u32 {
        match rng.below(5) {
            0 | 1 => max_chunks,
            2 => rng.range(1, 3) as u32,
            _ => rng.range(1, max_chunks as u64) as u32,
        }
    };
    while used.len() < npairs {
        // favour re-using a protocol in the opposite orientation (both roles on one side)
        let (p, cs) = if !used.is_empty() && rng.chance(1, 3) {
            let (p, cs) = used[rng.below(used.len() as u64) as usize];
            (p, if cs == "A" { "B" } else { "A" })
        } else {
            (*rng.pick(&protos), if rng.bool() { "A" } else { "B" })
        };
        if used.contains(&(p, cs)) {
            continue;
        }
        used.push((p, cs));
        let ss = if cs == "A" { "B" } else { "A" };
        let dir = rng.below(4); // 0: c->s, 1: s->c, 2,3: both
        let (cq, sq) = if pressure && used.len() == 1 {
            // the first pair of a pressure run: one direction, full quota, receiver starts late
            if dir % 2 == 0 { (max_chunks, 0) } else { (0, max_chunks) }
        } else {
            match dir {
                0 => (quota(rng), 0),
                1 => (0, quota(rng)),
                _ => (quota(rng), quota(rng)),
            }
        };
        let force_lazy = pressure && used.len() == 1;
        for (k, (side, role, q, pq)) in [(cs, "c", cq, sq), (ss, "s", sq, cq)].into_iter().enumerate() {
            idx += 1;
            let peer_idx = if k == 0 { idx + 1 } else { idx - 1 };
            agents.push(AgentSpec {
                idx,
                chan: Chan { side, proto: p, role },
                quota: q,
                peer_sends: pq > 0,
                slow_start_ms: if rng.chance(1, 3) { rng.range(5, 40) } else { 0 },
                // the peer sends more than an egress queue holds: sometimes let it all pile up first
                lazy_until: if pq >= 120 && q < 120 && (force_lazy || rng.chance(2, 3)) { Some((peer_idx, pq.min(160))) } else { None },
                seed: rng.next_u64(),
            });
        }
    }
    if allow_orphan && rng.chance(1, 2) {
        // a sender on a protocol nobody listens to on the other side
        let p = 0x0bad;
        idx += 1;
        agents.push(AgentSpec {
            idx,
            chan: Chan { side: if rng.bool() { "A" } else { "B" }, proto: p, role: if rng.bool() { "c" } else { "s" } },
            quota: rng.range(1, 20) as u32,
            peer_sends: false,
            slow_start_ms: 0,
            lazy_until: None,
            seed: rng.next_u64(),
        });
    }
    Topology { agents }
}

fn open_event(stack: &str, run: u64, topo: &Topology) -> Value {
    json!({"ev": "open", "stack": stack, "run": run,
           "chans": topo.agents.iter().map(|a| a.chan.json()).collect::<Vec<_>>(),
           "idx": topo.agents.iter().map(|a| a.idx).collect::<Vec<_>>()})
}

/// One run over the old stack's Plexer pair. Returns the merged events.
async fn run_plexers(topo: &Topology, limits: Limits, run: u64) -> Vec<Value> {
    let (sa, sb) = tokio::net::UnixStream::pair().unwrap_or_else(|e| die(&format!("socketpair: {e}")));
    let mut pa = Plexer::new(Bearer::Unix(sa));
    let mut pb = Plexer::new(Bearer::Unix(sb));
    let ticket = Arc::new(AtomicU64::new(1));
    let log: Log = Arc::new(Mutex::new(Vec::new()));
    let sent: Arc<Vec<AtomicU64>> = Arc::new((0..topo.agents.len() + 2).map(|_| AtomicU64::new(0)).collect());
    let mut chans = Vec::new();
    for a in &topo.agents {
        let plexer = if a.chan.side == "A" { &mut pa } else { &mut pb };
        let ch = if a.chan.role == "c" { plexer.subscribe_client(a.chan.proto) } else { plexer.subscribe_server(a.chan.proto) };
        chans.push(ch);
    }
    let ra = pa.spawn();
    let rb = pb.spawn();
    let mut handles = Vec::new();
    for (a, ch) in topo.agents.iter().zip(chans) {
        handles.push((a.clone(), tokio::spawn(agent(ch, a.clone(), ticket.clone(), log.clone(), sent.clone()))));
    }
    let hs: Vec<&tokio::task::JoinHandle<AgentChannel>> = handles.iter().map(|h| &h.1).collect();
    let stalled_run = wait_all(&hs, &log, limits).await;
    let mut done = Vec::new();
    let mut stalled = Vec::new();
    for (a, h) in handles {
        if h.is_finished() {
            match h.await {
                Ok(ch) => done.push((a, ch)),
                Err(e) => {
                    let t = ticket.fetch_add(1, Ordering::SeqCst);
                    log.lock().unwrap().push((t, json!({"ev": "panic", "t": t, "ch": a.chan.json(), "msg": e.to_string()})));
                }
            }
        } else {
            h.abort();
            stalled.push(a.chan.json());
        }
    }
    debug_assert!(stalled_run || stalled.is_empty());
    // every agent saw its peer's FIN: stop both plexers, then look for anything still queued
    ra.abort().await;
    rb.abort().await;
    for (a, mut ch) in done {
        while let Ok(Ok(p)) = tokio::time::timeout(Duration::from_millis(500), ch.dequeue_chunk()).await {
            let t = ticket.fetch_add(1, Ordering::SeqCst);
            let (proj, fin) = project(&p);
            log.lock().unwrap().push((t, merge(json!({"ev": "deq", "t": t, "ch": a.chan.json(), "fin": fin, "late": true}), proj)));
        }
    }
    let t = ticket.fetch_add(1, Ordering::SeqCst);
    log.lock().unwrap().push((t, json!({"ev": "quiesce", "t": t, "stalled": stalled, "enq_retries": RETRIES.swap(0, Ordering::SeqCst)})));
    let mut evs = std::mem::take(&mut *log.lock().unwrap());
    evs.sort_by_key(|e| e.0);
    let mut out = vec![open_event("plexer", run, topo)];
    out.extend(evs.into_iter().map(|e| e.1));
    out
}

/// network2 bearer: one writer task and one reader task per side; the writer
/// interleaves the side's sending channels segment by segment.
async fn run_bearer2(topo: &Topology, limits: Limits, run: u64, seed: u64) -> Vec<Value> {
    use pallas_network2::bearer::Bearer as B2;
    let (sa, sb) = tokio::net::UnixStream::pair().unwrap_or_else(|e| die(&format!("socketpair: {e}")));
    let (ra, wa) = B2::Unix(sa).into_split();
    let (rb, wb) = B2::Unix(sb).into_split();
    let ticket = Arc::new(AtomicU64::new(1));
    let log: Log = Arc::new(Mutex::new(Vec::new()));
    let mut tasks = Vec::new();
    for (side, mut w, mut r) in [("A", wa, rb), ("B", wb, ra)] {
        // writer of `side`
        let senders: Vec<AgentSpec> = topo.agents.iter().filter(|a| a.chan.side == side && a.quota > 0).cloned().collect();
        // reader on the other side listens for these (orphans have no FIN to wait for: they are still read)
        let expect_fin = senders.len();
        let (tk, lg) = (ticket.clone(), log.clone());
        let mut rng = Rng::new(seed ^ (side.as_bytes()[0] as u64));
        tasks.push(tokio::spawn(async move {
            let mut left: Vec<(AgentSpec, u32)> = senders.into_iter().map(|a| (a, 0u32)).collect();
            while !left.is_empty() {
                jitter(&mut rng).await;
                let i = rng.below(left.len() as u64) as usize;
                let (a, seq) = (&left[i].0.clone(), left[i].1);
                let fin = seq + 1 == a.quota;
                let p = make_payload(&mut rng, a.idx, seq + 1, fin);
                let (proj, fin_flag) = project(&p);
                let raw = if a.chan.role == "c" { a.chan.proto } else { a.chan.proto | 0x8000 };
                let t = tk.fetch_add(1, Ordering::SeqCst);
                match w.write_segment(raw, rng.next_u64() as u32, &p).await {
                    Ok(()) => lg.lock().unwrap().push((t, merge(json!({"ev": "enq", "t": t, "ch": a.chan.json(), "fin": fin_flag}), proj))),
                    Err(e) => {
                        lg.lock().unwrap().push((t, json!({"ev": "enq_err", "t": t, "ch": a.chan.json(), "err": e.to_string()})));
                        return;
                    }
                }
                left[i].1 += 1;
                if left[i].1 == a.quota {
                    left.remove(i);
                }
            }
            // keep the write half open until the run ends (dropping it is EOF for the reader)
            tokio::time::sleep(Duration::from_secs(3600)).await;
            drop(w);
        }));
        let other = if side == "A" { "B" } else { "A" };
        let (tk, lg) = (ticket.clone(), log.clone());
        let mut rng = Rng::new(seed ^ 0x55 ^ (side.as_bytes()[0] as u64));
        tasks.push(tokio::spawn(async move {
            let mut fins = 0;
            while fins < expect_fin {
                jitter(&mut rng).await;
                match r.read_segment().await {
                    Ok((raw, p)) => {
                        let t = tk.fetch_add(1, Ordering::SeqCst);
                        let (proj, fin) = project(&p);
                        // the agent a segment with wire id `raw` is for: server-mode bit set => sent by a
                        // responder, i.e. for the local client of that protocol
                        let ch = json!({"side": other, "proto": raw & 0x7fff, "role": if raw & 0x8000 != 0 { "c" } else { "s" }});
                        lg.lock().unwrap().push((t, merge(json!({"ev": "deq", "t": t, "ch": ch, "fin": fin}), proj)));
                        if fin {
                            fins += 1;
                        }
                    }
                    Err(e) => {
                        let t = tk.fetch_add(1, Ordering::SeqCst);
                        lg.lock().unwrap().push((t, json!({"ev": "deq_err", "t": t, "side": other, "err": e.to_string()})));
                        return;
                    }
                }
            }
        }));
    }
    // readers are tasks 1 and 3
    let readers: Vec<&tokio::task::JoinHandle<()>> = vec![&tasks[1], &tasks[3]];
    wait_all(&readers, &log, limits).await;
    let stalled: Vec<Value> = [1usize, 3].iter().filter(|i| !tasks[**i].is_finished()).map(|i| json!(if *i == 1 { "reader-B" } else { "reader-A" })).collect();
    for h in &tasks {
        h.abort();
    }
    let t = ticket.fetch_add(1, Ordering::SeqCst);
    log.lock().unwrap().push((t, json!({"ev": "quiesce", "t": t, "stalled": stalled})));
    let mut evs = std::mem::take(&mut *log.lock().unwrap());
    evs.sort_by_key(|e| e.0);
    // in the bearer runs every sender's peer "exists" (the reader task): list both ends as open
    let mut chans: Vec<Value> = Vec::new();
    for a in &topo.agents {
        for c in [a.chan.json(), json!({"side": if a.chan.side == "A" { "B" } else { "A" }, "proto": a.chan.proto, "role": if a.chan.role == "c" { "s" } else { "c" }})] {
            if !chans.contains(&c) {
                chans.push(c);
            }
        }
    }
    let mut out = vec![json!({"ev": "open", "stack": "bearer2", "run": run, "chans": chans})];
    out.extend(evs.into_iter().map(|e| e.1));
    out
}

pub fn trace(args: &Args) {
    let mut rng = Rng::new(args.seed());
    let runs = args.num("runs", 4);
    let runs2 = args.num("runs2", 2);
    let max_chunks = args.num("chunks", 200) as u32;
    let limits = Limits {
        idle: Duration::from_secs(args.num("idle", 15)),
        deadline: Duration::from_secs(args.num("deadline", 180)),
    };
    let workers = args.num("threads", 4) as usize;
    DETAIL.store(args.num("detail", 0) == 1, Ordering::Relaxed);
    let mut out = Ndjson::create(args.get("out"));
    let rt = tokio::runtime::Builder::new_multi_thread()
        .worker_threads(workers)
        .enable_all()
        .build()
        .unwrap_or_else(|e| die(&format!("runtime: {e}")));
    for run in 0..runs {
        let topo = topology(&mut rng, max_chunks, true, run % 3 == 0);
        let evs = rt.block_on(run_plexers(&topo, limits, run));
        for e in evs {
            out.ev(e);
        }
    }
    for run in 0..runs2 {
        let mut topo = topology(&mut rng, max_chunks, false, false);
        // 15-bit protocol ids only: network2 reserves the top bit for the mode
        for a in topo.agents.iter_mut() {
            a.chan.proto &= 0x7fff;
        }
        let seed = rng.next_u64();
        let evs = rt.block_on(run_bearer2(&topo, limits, runs + run, seed));
        for e in evs {
            out.ev(e);
        }
    }
    out.finish();
    rt.shutdown_timeout(Duration::from_secs(1));
}
